#!/usr/bin/env python3
"""Writes MANIFEST.json from the per-property registry below (kept in one place so the file is always valid)."""
import json
import subprocess
from pathlib import Path

VERIF = Path(__file__).resolve().parent.parent
GUARD = 'GEOPHIRES_X_VERIF'

TR = (' TRANSLATOR TIE: tools/py2lean.py regenerates, on every run, Lean definitions from the current source text of {fns} '
      '(Generated/Code.lean); theorems {thms} prove for ALL arguments that the transcription equals the model the other theorems are about, so a change of that source '
      'breaks a proof obligation (then the differential search looks for the failing input).')

# id -> (level text, level note, technique)   -- only properties whose check exists and passes on the unchanged tree
CLAIMED = {
    'C16': (
        'Lean theorems give the closed form of both schedule builders for every lifetime, escalation start, PTC duration and all rational '
        'prices/rates (start value, linear growth, cap, PTC window, inflation adjustment, construction-year zeros, ITC/grant/fee arithmetic); '
        'the models are tied to the code on every run by calling the real builders directly (exact rationals) and by whole runs.'
        + ' TRANSLATOR TIE: tools/py2lean.py regenerates, on every run, Lean definitions from the current source text of BuildPricingModel and BuildPTCModel (Generated/Code.lean); theorems C16.code_BuildPricingModel_is_model / code_BuildPTCModel_is_model / code_price_shape prove for ALL arguments that the transcription equals the model the other theorems are about, so a change of that source breaks a proof obligation (then the differential search looks for the failing input).',
        'kernel + propext/Classical.choice/Quot.sound; tools/py2lean.py (meaning given to the Python subset); float rounding, generators and the sampled correspondence are trusted (DESIGN §5)',
        'Lean 4 proof over an exact model + source-to-Lean translation of both builders proved equal to the model + differential correspondence with the real builders'),
}

CLAIMED['C01'] = (
    'Lean theorems: the model of CalculateLCOELCOHLCOC (one product per end-use, three economic models) equals the documented closed forms '
    'for every lifetime, every yearly series and all rational costs/rates (FCR, standard discounted with undiscounted first year, BICYCLE '
    'reduced with the annuity identity), with product selection and the cogeneration split; the model is tied to the code on every run by '
    'whole runs through the observer hook (run\'s own CCap, Coam, other annual costs and energy series -> exact evaluation -> compared '
    'with LCOE/LCOH/LCOC and the report lines).',
    'kernel + propext/Classical.choice/Quot.sound; documented formulas as written in Properties/C01.lean; SUTRA/AGS economics not modelled; '
    'float rounding and the sampled correspondence trusted (DESIGN §5)',
    'Lean 4 proof over an exact rational model + whole-run snapshot correspondence')

CLAIMED['C04'] = (
    'Lean theorems over the exact cash-flow model for every construction period, lifetime and series: construction-year CAPEX shares, '
    'operating-year revenue (energy x price, + carbon) - O&M, cumulative = running sum, NPV = discounted sum under both conventions, '
    'VIR/MOIC definitions, payback lies within a turn year (repaired loop) / is 0 = N/A when there is none, with the kernel-checked '
    'counterexample for the loop as it stood on the pinned tree (defect F5, fixed in /repo); tied to the code on every run by whole runs '
    '(reported series and metrics vs exact model; per-product revenue columns; IRR clause via the exact NPV at the reported rate, and irr_unique: a conventional cash flow has at most one rate above -100 % with zero NPV, so that rate IS the IRR; add-on project cash flow likewise, at the project\'s discount rate).'
    + ' TRANSLATOR TIE: tools/py2lean.py regenerates, on every run, Lean definitions from the current source text of CalculateRevenue, CalculateTotalRevenue and the payback scan inside Economics.Calculate (Generated/Code.lean); theorems C04.code_CalculateRevenue_is_model / code_CalculateTotalRevenue_is_model / code_cashflow_is_assemble / code_payback_is_model prove for ALL arguments that the transcription equals the model the other theorems are about, so a change of that source breaks a proof obligation (then the differential search looks for the failing input).',
    'kernel + propext/Classical.choice/Quot.sound; tools/py2lean.py (meaning given to the Python subset); IRR value is numerical (numpy_financial) and only its defining clause is checked; float '
    'rounding and the sampled correspondence trusted (DESIGN §5)',
    'Lean 4 proof over an exact rational model + source-to-Lean translation of the revenue / cash-flow / payback code proved equal to the model + whole-run snapshot correspondence')

CLAIMED['C03'] = (
    'Lean theorems: total capital cost = sum of components - ITC + fees - incentives - grants (or the user-fixed total), every user-fixed '
    'component used exactly, well field = per-well costs x numbers of wells (+ laterals, x1.05 when correlated), total O&M = components + '
    'amortised redrilling + fees - tax relief, chiller capital cost not double counted, drilled length = vertical + lateral; the 17-row '
    'drilling-cost table is re-extracted from the repository on every run and its obligations re-decided by the kernel; tied to the code by '
    'whole runs (every component and both totals recomputed exactly from the run\'s own inputs) and a direct differential of the drilled-length function.',
    'kernel + propext/Classical.choice/Quot.sound; tools/extract.py; plant/labour/pump correlations (log/pow) are observed inputs; '
    'SUTRA/AGS/SBT economics not modelled; float rounding and the sampled correspondence trusted (DESIGN §5)',
    'Lean 4 proof over an exact rational model + regenerated table (decide +kernel) + whole-run correspondence')

CLAIMED['C11'] = (
    'Lean theorems, for all scale factors k and all base inputs: every levelized cost is homogeneous of degree 1 in the cost inputs (all '
    'three economic models, all end-uses), levelized cost has no price input, NPV responds strictly to a price rise in a year with energy '
    'sold, energy x c divides the levelized cost by c (efficiency halved => LCOH doubled), zero add-on / zero-rate ITC / zero grant are '
    'neutral; corollaries of the C01/C04/C16 models, which are re-tied to the code in this check, plus paired real runs of every relation.',
    'kernel + propext/Classical.choice/Quot.sound; relations between real runs are sampled (Grid x relations); float rounding trusted (DESIGN §5)',
    'Lean 4 proof (corollaries over exact models) + paired-run correspondence')

CLAIMED['C02'] = (
    'Lean theorems for every time step, year, lifetime and number of steps per year: heat extracted = flow x cp x dT, first-law balance of '
    'every cogeneration cycle, heat-pump and chiller COP relations, net = gross - pumping, district-heating daily split (geothermal + peaking = '
    'demand, geothermal <= well output), linearity of the yearly integration (annual net = annual gross - annual pumping, annual heat = efficiency x '
    'annual extracted), trapezoid form of a full slice, constant power x 8760 h x utilisation, remaining heat = initial - cumulative extracted; '
    'tied to the code by whole runs (all power series, all annual figures, remaining heat and the district split recomputed exactly).'
    + TR.format(fns='SurfacePlant.integrate_time_series_slice (slice, one-sample extrapolation, np.trapz)', thms='C02.code_integrate_is_model / code_annual_net'),
    'kernel + propext/Classical.choice/Quot.sound; tools/py2lean.py (meaning given to the Python subset, np.trapz by its definition); gross electricity and cp are observed inputs; heat towards electricity recovered from the reported '
    'first-law efficiency; SUTRA/AGS surface plants not modelled; float rounding and the sampled correspondence trusted (DESIGN §5)',
    'Lean 4 proof over an exact rational model + source-to-Lean translation of the yearly integration proved equal to the model + whole-run snapshot correspondence')

CLAIMED['C05'] = (
    'Lean theorems for every layer list, depth and series: bottom-hole temperature = surface temperature + integral of the gradients down to '
    'min(depth, depth where Tmax is reached), temperature at the cap depth = Tmax hence BHT <= Tmax, gradient heuristic positive, percentage-'
    'drawdown profile starts at BHT / never rises / never exceeds BHT (for a reservoir at least as hot as the injected water), single-fracture '
    'profile likewise given erf monotone in [0,1], tiling never goes below the drawdown limit and restarts with period k, count = floor(n/k); '
    'tied to the code by whole runs (layer walk and the whole model-4 chain recomputed exactly; models 1-3 / Ramey through the property clauses).',
    'kernel + propext/Classical.choice/Quot.sound; erf/sqrt monotonicity assumed; inverse-Laplace models and Ramey only at property level; one known '
    'finding (reservoir colder than injection temperature accepted); float rounding and the sampled correspondence trusted (DESIGN §5)',
    'Lean 4 proof over an exact rational model + whole-run snapshot correspondence')

CLAIMED['C15'] = (
    'Lean theorems for all lifetimes, steps per year, pressures and rates: the production-reservoir pressure predictor starts at the stated '
    'multiple of hydrostatic, follows max(hydrostatic, P0 - t*(P0-hydrostatic)/floor(100/rate*n)) including the early break, is monotone and '
    'never below hydrostatic, is flat at exactly 100 %; injection pressure = initial + rate/n * t; every pumping-power path ends in the clamp '
    '(>= 0) and the total is the sum of the two sides; laminar friction is proportional to D^-4; PARTIAL: turbulent friction monotonicity is proved '
    'up to a stated hypothesis on the Colebrook factor. Tied to the code by direct differential of the two predictors, whole runs under both '
    'hydraulic models, and ordered diameter pairs of real runs.'
    + ' TRANSLATOR TIE: tools/py2lean.py regenerates, on every run, Lean definitions from the current source text of ReservoirPressurePredictor (incl. early return, int() and the break) and InjectionReservoirPressurePredictor (Generated/Code.lean); theorems C15.code_ReservoirPressurePredictor_is_model / code_InjectionReservoirPressurePredictor_is_model prove for ALL arguments that the transcription equals the model the other theorems are about, so a change of that source breaks a proof obligation (then the differential search looks for the failing input).',
    'kernel + propext/Classical.choice/Quot.sound; tools/py2lean.py (meaning given to the Python subset); partial for the turbulent branch (log10/pow/sqrt not rational); CoolProp densities/viscosities and '
    'the pressure-drop formulas feeding the clamps are observed; float-floor ties skipped; sampled correspondence trusted (DESIGN §5)',
    'Lean 4 proof over an exact rational model (partial for turbulent friction) + source-to-Lean translation of both pressure predictors proved equal to the model + direct and whole-run differential')

CLAIMED['C17'] = (
    'Lean theorems over the exact model of HIP_RA_X.Calculate for all rational inputs: volumes are the stated porosity fractions of area x '
    'thickness, stored heat = rock + fluid part, available = stored x exergy fraction hence available <= stored for a reservoir hotter than the '
    'rejection temperature (kernel-checked counterexample for the accepted opposite ordering: finding F14), producible <= available, conversion '
    'efficiency in [0.427, 0.66], exact homogeneity in area and in thickness (extensive x k; per-area, per-volume, per-mass, percentage results as '
    'stated); tied to the code by hooked HIP-RA-X runs (all 20 outputs recomputed exactly), scaled partner runs and unit-variant partner runs.',
    'kernel + propext/Classical.choice/Quot.sound; CoolProp values and the utilisation-efficiency interpolation are re-queried inputs; pint factors '
    'trusted; one known finding (F14); float rounding and the sampled correspondence trusted (DESIGN §5)',
    'Lean 4 proof over an exact rational model + hooked-run correspondence + paired runs')

CLAIMED['C18'] = (
    'Lean theorems, all of the form "for all x <= y": bottom-hole temperature is monotone in depth and in every gradient (Tmax cap included, via '
    'BHT = min(temperature at depth, Tmax)), percentage-drawdown temperature is antitone in the rate at every time, the Ramey initial wellbore drop is '
    'antitone in flow rate (proved at R from convexity of exp, same generic definition run at Float), every row of the regenerated drilling-cost table '
    'is monotone on [500 m, 15 km] (decide +kernel), capital / O&M components and adjustment factors enter with non-negative coefficients, NPV is '
    'antitone in cost, levelized cost is monotone in capital cost (models 1-2; model 3 PARTIAL under kappa >= 0 with a kernel-checked in-range '
    'kappa < 0) and in O&M (all models); ordered pairs of real runs for every clause; known finding F15 (model 3 and kappa < 0).',
    'kernel + propext/Classical.choice/Quot.sound; models tied by the C01/C03/C04/C05 checks; Ramey theorem needs a positive time function; Lean Float = C '
    'library for the Ramey differential; tools/extract.py; sampled pairs trusted (DESIGN §5)',
    'Lean 4 proof (corollaries over exact models, one real-analysis lemma, regenerated table) + ordered-pair runs')

CLAIMED['C07'] = (
    'Lean theorems for every declaration (any Min, Max, default, allowable set) and every value incl. NaN and the infinities: a float below Min / '
    'above Max is rejected with a message built around the parameter name, values at and inside the bounds are accepted and stored exactly, an '
    'accepted read never alters the value (no clamping, no defaulting), NaN is rejected (kernel-checked witness that the comparison of the pinned tree '
    'accepted it: F11, fixed), integers / options outside the allowable set are rejected and the default-sentinel / current value are the only bypasses; '
    'every float and integer declaration of every module class in every configuration family is re-extracted on each run and proved well-formed '
    '(decide +kernel); tied to the code by an exhaustive unit-level differential of the real ReadParameter (about 9500 probes) and pipeline-level runs.',
    'kernel + propext/Classical.choice/Quot.sound; tools/extract.py; CPython float()/int() parsing; int-vs-Enum equality evaluated in Python; list / '
    'string / bool parameters out of scope; pipeline level is sampled in the quick tier (DESIGN §5)',
    'Lean 4 proof over an IEEE-aware model + regenerated declaration table (decide +kernel) + exhaustive unit-level differential')

CLAIMED['C12'] = (
    'Lean theorems over a character-level model of read_input_file, for every file: any permutation of entries with distinct names (and any '
    'reordering that keeps duplicates in their relative order) yields the same dictionary, the last occurrence of a name governs, blank lines and '
    '# / * / -- comment lines (also indented) carry nothing and may be inserted anywhere, blanks and tabs around name, comma and value are '
    'irrelevant, a trailing comment does not change name and value, CRLF / stray blanks at line ends are irrelevant, client overrides appended '
    'after the base file govern; tied to the code by an exact differential of the real tokenizer on generated decorated files and by whole-run '
    'variants (permuted / decorated / duplicate-injected) of the same parameter set.',
    'kernel + propext/Classical.choice/Quot.sound; CPython strip/split/universal newlines modelled for ASCII and differential-tested; non-ASCII '
    'whitespace only differential; that modules read the dictionary in their own order is tested by the whole-run variants (DESIGN §5)',
    'Lean 4 proof over a character-level tokenizer model + exact differential + whole-run variants')

CLAIMED['C19'] = (
    'Every clause is a kernel-decided obligation (decide +kernel) over tables regenerated from the repository on each run: generated request schema '
    'names = union of the enumerated sources, each identically-defined parameter has the type / unit / bounds / numeric default its module '
    'declaration enforces, the three committed schema files equal the generated ones entry by entry, every result-schema field is in the client '
    'field list, every schema name is accepted by some module, and the accepted-but-unlisted names are exactly the listed known finding F13 (30 names); '
    'a change to any declaration, source list, committed file or client field list changes a table and the kernel re-decides. The space is finite and '
    'enumerated completely.',
    'kernel (decide +kernel adds no axioms); tools/extract.py (data copying, string interning, canonical JSON) is the translator in the trusted base; '
    'enforcement of the bounds themselves is C07; known findings F13 (30 names), F20 (Maximum Drawdown max)',
    'Lean 4 kernel decision over regenerated finite tables (translator from source)')

CLAIMED['C20'] = (
    'Lean model of the command line\'s path plan (absolute input / report / JSON paths computed before the internal chdir, JSON = sibling of the report '
    'with suffix .json) with theorems that the plan does not depend on the directory the simulator switches to, that an absolute output path is kept, and '
    'a kernel-evaluated witness separating the whole-path str.replace derivation (pinned tree, F4) from the sibling derivation; tied to the code by a '
    'differential: `python -m geophires_x` subprocesses x output-argument shapes x start directories vs the in-process client vs the direct Model pipeline (fresh process, default report name) vs Monte-Carlo-embedded runs '
    'on the same succeeding and failing inputs (files created compared exactly with the Lean plan, exit status, report content, MC rows).',
    'the equality of numbers between entry points is observed by differential runs (all three go through GEOPHIRESv3.main, which the correspondence '
    'exercises), not proved; OS / argparse trusted; F4 fixed in /repo (4506c80)',
    'Lean 4 theorems over a path-plan model + differential correspondence of entry points (subprocess CLI / client / Monte-Carlo)')

CLAIMED['C06'] = (
    'Lean theorems over a unit model built from SI definitions (not from pint): conversion preserves the denoted quantity, is a bijection, composes; the reader '
    'stores the same number however the same quantity is written; a reader state whose recorded unit matches its number is echoed faithfully, while the pinned '
    'reader echoes the twice-converted number (kernel-evaluated witness = finding F8); currency prefixes (repaired input path correct for all 9 prefix pairs, pinned '
    'one right iff the prefixes agree = F6, fixed); the output directive multiplies by the exact factor and round-trips. Obligations over tables regenerated from '
    'Units.py and the ParameterDicts on each run: every catalogue member of every class used by an input resolves to atoms of the class dimension or is in the '
    'explicit exclusion list (which is proved tight), and the declarations whose current unit differs from the preferred one are exactly the three listed (F22). '
    'Tie: exhaustive differential of the real ReadParameter + ConvertUnitsBack against the Lean reader on every (float parameter, catalogue unit) pair; whole-run '
    'pairs (all computed quantities equal, changed report lines compared as quantities); output-directive pairs (changed lines must carry the new label and the '
    'exact factor).',
    'floating-point conversion error is not modelled (agreement at 1e-9); angles (irrational factor) and other currencies are outside the model; known findings '
    'F8 (echo double conversion), F16 (output directive, 37 report lines), F21 (compound currency units), F22 (3 declarations); F6, F7, F23 fixed in /repo',
    'Lean 4 theorems over an SI-definition unit model + kernel-decided catalogue obligations (translator) + exhaustive differential correspondence')

CLAIMED['C13'] = (
    'Lean theorems over a scheduling model (pool of workers = (seed, position); schedule = arbitrary list of worker indices, i.e. every pool size, iteration count, '
    'assignment and interleaving): with pairwise distinct worker seeds no two iterations consume overlapping generator positions (induction over the schedule), hence '
    'pairwise distinct sample vectors for an injective generator; a pool that inherits the parent state duplicates draws (the pinned F3 behaviour, fixed); uniform / '
    'triangular / binomial transforms stay in their support; the file holds one row per successful task. The freshness hypothesis and the position bookkeeping are '
    'checked on the real pool on every run through the env-guarded event log (generator state digests before / after each task, per pid), the Lean schedule model is '
    'run on the observed schedule, and real runs (HIP-RA-X, GEOPHIRES; 1..16 workers; all five distributions; failing iterations; contention batches) are checked '
    'for distinct samples, support and rows = successes.',
    'statistical independence is not expressible; the generator is an abstract injective stream (numpy trusted); a 10 s pylocker time-out dropping a row is runtime behaviour '
    'outside the model (rows vs worker-logged appends is compared on every run); F3 and F24 (rows lost under lock contention) fixed in /repo',
    'Lean 4 induction over schedules + hypothesis validation and differential runs against the real process pool (hook log)')

CLAIMED['C14'] = (
    'Lean theorems over a character-level model of row construction (substring match of "  <output>: ", unique-match rule, value extraction) and of the shared file: '
    'the row equals the header cells with unfound outputs removed, so it is aligned iff every output is found exactly once (kernel-evaluated F12 witnesses otherwise); any '
    'completion order yields a permutation of the successful rows and a failing iteration removes only its own; appended rows stay whole under any order of the writes WITHOUT relying on the (racy) file lock, positioned writes tear (kernel witness), and the facts that make the first apply to the code — append mode, one write per row, flushed, no other use of the file object — are read off work_package by the translator on every run and kernel-decided; the row text round-trips through the statistics step\'s parser for any number of values and any sampled-input text (parse_format_row, row_text_aligned: header order survives); min / max / mean / variance specifications, mean between '
    'min and max, and independence of row order (permutation invariance). Tie: every row of real runs is re-simulated from the base file plus its recorded samples and the '
    'outputs re-extracted by the Lean row model from the fresh report (cell-by-cell string equality, header order); the statistics are recomputed exactly in Lean from '
    'the rows and compared with the JSON (1e-9) and the text block (JSON = text, formatted); the multiset of file rows is compared with the rows the workers logged under '
    'contention; runs with a known failing subset.',
    'float summation order not modelled (1e-9); pylocker is not assumed (integrity is observed); known finding F12 (absent / ambiguous output label shifts columns and '
    'crashes the summary)',
    'Lean 4 theorems over row / file / statistics models + replay of every row and exact recomputation of the statistics (differential)')

CLAIMED['C09'] = (
    'Lean theorems: rounding to the displayed precision stays within half a unit of the last digit for every value; the printed integer and fraction digits denote '
    'exactly that rounded value with exactly d fraction digits for every magnitude (i.e. also when the figure overflows its column); profile tables have exactly one row '
    'per simulated year, years ascending, every figure taken at the year\'s stride and never outside the series when it has L*n points; the cash-flow table has '
    'construction + operating years; max / min aggregates dominate. Tie: for every generated report the live model is snapshotted at the writer (env-guarded hook), the '
    'text is tokenised independently of the client, and every line whose label is in the specification (119 labels: quantity, aggregate, scale, decimals, unit source; '
    'five of them computed combinations) and every cell of the production, annual and revenue/cash-flow tables is compared AS A STRING with what the Lean model renders '
    'from the snapshot (CPython\'s correctly rounded formatting = round-half-even on the exact rational), plus the unit label, row counts and year columns.',
    'the specification table is hand-written from the meaning of the labels (unspecified labels are listed in the evidence and not decided: g/E formats, segment lines, '
    'jobs); add-on / S-DAC-GT / SUTRA / HIP-RA-X writers and rich output not covered; values within 1e-12 of a rounding boundary skipped; known finding F25',
    'Lean 4 theorems over a formatting / table model + exact string differential of every specified report figure against the live model')

CLAIMED['C10'] = (
    'Lean theorems over a character-level model of the client parser (substring marker with indentation, set.pop() as an arbitrary choice, deletion of the label and of '
    'blank runs, unit rule, number parser, table rows split on blank runs): any choice of matching line gives the same field when the matching lines agree (so the '
    'structure cannot depend on the hash seed); the answer is always read off a line carrying the marker; a kernel-decided obligation over tables regenerated from the writers\' AST, the parameter declarations and the client field table, lifted by a general theorem: for every client field, every label the writers can print, any indentation and any colon-free figure text, the field\'s marker matches the line only if the field IS the label (never a value from another line); a table row round-trips through the splitter for ANY column '
    'widths (overflowing figures cannot shift or drop a cell); kernel-evaluated examples and an ambiguity witness. Tie: on every generated report the real GeophiresXResult '
    'is compared with an independent tokenisation (value, unit, every cell of every profile table, row counts), with the Lean model on the same lines (the real answer must '
    'be the single candidate over all choices), with itself under three PYTHONHASHSEEDs, its CSV export with its own result entry by entry, and the JSON written next to '
    'the report with the report figures of the quantities both carry.',
    'string-valued fields compared by presence only; the JSON comparison covers the scalar quantities of C09\'s label specification; known finding F28 (stimulation cost '
    'missing from the JSON); F27 (add-on outputs overwrote the base outputs in the JSON) fixed in /repo',
    'Lean 4 theorems over a parser model + exact differential of the real client against independent tokenisation, the Lean model, hash seeds, CSV and JSON')

CLAIMED['C08'] = (
    'Lean refinement proof over the client state machine (cwd, argv, cache, files; operations request / rewrite / chdir), for every finite history '
    'incl. failing requests and rewrites between calls: the outputs of the (repaired) client equal those of a cache-free, history-free specification '
    '(every result is the simulation of the file content at the moment of the request), argv is never changed, cwd is moved only by the caller\'s own '
    'chdir, the cache only holds results of its key\'s content, lru_cache-style memo tables are transparent; kernel-evaluated witnesses that the client '
    'of the pinned tree violated both clauses (F1, F2, both fixed in /repo). Tied to the code by seeded histories run in one process against the real '
    'client and compared op by op with the Lean machine, `sim` tabulated from fresh-subprocess runs under another hash seed and directory.',
    'kernel + propext/Classical.choice/Quot.sound; "the simulator is a function of the file content" is tested, not proved (it is the tie); OS, CPython '
    'hashing, memory / threads / logging handlers not modelled (DESIGN §5)',
    'Lean 4 refinement proof (state machine vs specification, induction over histories) + history differential')

PENDING_REASON = 'check not built yet in this commit (work in progress; see DESIGN.md §9 for the order)'


def main():
    props = [json.loads(l)['id'] for l in (VERIF / 'properties.jsonl').read_text().splitlines() if l.strip()]
    hooks = subprocess.run(['git', '-C', '/repo', 'log', '--format=%H %s', '--grep', '^verif hook'], capture_output=True, text=True).stdout
    commits = [ln.split()[0] for ln in hooks.splitlines()]
    man = {
        'version': 1,
        'setup_cmd': './check --setup',
        'hooks': {
            'guard': GUARD,
            'enable': f'env {GUARD}=1 (set by ./check; observers are registered in-process by the harness; MC event log via {GUARD}_LOG)',
            'baseline_off_cmd': f'cd /repo && env -u {GUARD} /venv/bin/python -m pytest -ra -q -p no:cacheprovider --timeout=900 --continue-on-collection-errors',
            'source_commits': commits,
            'add_only': True,
        },
        'engines': [{
            'name': 'geoverif', 'path': 'lean/', 'serves_properties': sorted(CLAIMED),
            'kind_free_text': 'Lean 4 library (import-free executable models, theorem files, tables regenerated from /repo) + Python '
                              'correspondence harness driving the real code and the Lean driver over a line protocol',
        }],
        'checks': [],
        'not_applicable': [],
        'notes': 'All checks: ./check <id> --tier quick|thorough; exit 2 = infrastructure error (never a verdict). See DESIGN.md.',
    }
    for pid in props:
        if pid in CLAIMED:
            text, note, tech = CLAIMED[pid]
            man['checks'].append({
                'property_id': pid,
                'quick_cmd': f'./check {pid} --tier quick',
                'thorough_cmd': f'./check {pid} --tier thorough',
                'evidence_file': f'evidence/{pid}.json',
                'replay_cmd_template': f'./check {pid} --replay {{path}}',
                'engine': 'geoverif',
                'level_claimed': {'category': 'proof', 'text': text, 'design_ref': f'DESIGN.md §6 {pid}'},
                'level_note': note,
                'technique': tech,
            })
        else:
            man['not_applicable'].append({'property_id': pid, 'reason': PENDING_REASON})
    (VERIF / 'MANIFEST.json').write_text(json.dumps(man, indent=1) + '\n')


if __name__ == '__main__':
    main()
