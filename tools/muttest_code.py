#!/usr/bin/env python3
"""Dev self-test of the translation tie: textual mutations of the translated functions, applied to a scratch worktree of /repo
(never to /repo itself), each followed by the owning property's quick check with VERIF_REPO pointing at the worktree.

  tools/muttest_code.py /tmp/wt_clean            (the worktree must be clean; it is restored after every mutation)

Expected: every mutation breaks the `…_is_model` proof (lake build of the property module fails); behaviour-changing ones additionally
yield a failing input from the differential search (VIOLATION without `no-failing-input-found`)."""
import json
import os
import subprocess
import sys
from pathlib import Path

VERIF = Path(__file__).resolve().parent.parent
MUTS = [
    ('M1 pricing: escalation counts one year more', 'src/geophires_x/Economics.py', 'Price[i] = Price[i] + ((i - EscalationStartYear) * EscalationRate)',
     'Price[i] = Price[i] + ((i - EscalationStartYear + 1) * EscalationRate)', 'C16', True),
    ('M2 PTC: inflation adjustment starts a year late', 'src/geophires_x/Economics.py', 'if ptc_inflation_adjusted and year > 0:', 'if ptc_inflation_adjusted and year > 1:', 'C16', True),
    ('M3 cash flow: cumulative starts at the first operating year (in-place assembly of Economics.Calculate)', 'src/geophires_x/Economics.py',
     "        for i in range(1, model.surfaceplant.plant_lifetime.value + model.surfaceplant.construction_years.value, 1):\n            self.TotalCummRevenue.value[i] = self.TotalCummRevenue.value[i-1] + self.TotalRevenue.value[i]",
     "        for i in range(model.surfaceplant.construction_years.value, model.surfaceplant.plant_lifetime.value + model.surfaceplant.construction_years.value, 1):\n            self.TotalCummRevenue.value[i] = self.TotalCummRevenue.value[i-1] + self.TotalRevenue.value[i]", 'C04', True),
    ('M3b dead code: CalculateTotalRevenue (not called by the module) changed', 'src/geophires_x/Economics.py',
     "    for i in range(1, plantlifetime + ConstructionYears, 1):\n        CummCashFlow[i] = CummCashFlow[i - 1] + CashFlow[i]\n    return CashFlow, CummCashFlow\n\n\ndef CalculateRevenue",
     "    for i in range(ConstructionYears, plantlifetime + ConstructionYears, 1):\n        CummCashFlow[i] = CummCashFlow[i - 1] + CashFlow[i]\n    return CashFlow, CummCashFlow\n\n\ndef CalculateRevenue", 'C04', False),
    ('M4 payback scan from index 0 again (defect F5)', 'src/geophires_x/Economics.py', 'for i in range(1, len(self.TotalCummRevenue.value), 1):', 'for i in range(0, len(self.TotalCummRevenue.value), 1):', 'C04', True),
    ('M5 carbon: electricity valued at the natural-gas intensity', 'src/geophires_x/Economics.py', 'elec_CO2_produced_lbs = electrical_energy_kwh * grid_CO2_intensity_lb_kwh',
     'elec_CO2_produced_lbs = electrical_energy_kwh * natural_gas_CO2_intensity_lb_kwh', 'C04', True),
    ('M6 pressure: decline one step late', 'src/geophires_x/WellBores.py', 'pressure[timestep] = pressure[0] - (pressure_change_per_timestep * timestep)',
     'pressure[timestep] = pressure[0] - (pressure_change_per_timestep * (timestep - 1))', 'C15', True),
    ('M7 pressure: harmless rewrite (<= instead of < before writing the same value)', 'src/geophires_x/WellBores.py', 'if pressure[timestep] < initial_pressure_kPa:',
     'if pressure[timestep] <= initial_pressure_kPa:', 'C15', False),
    ('M8 integration: 360-day year', 'src/geophires_x/SurfacePlant.py', 'dx=1. / dx_steps * 365. * 24.', 'dx=1. / dx_steps * 360. * 24.', 'C02', True),
]


def main():
    wt = Path(sys.argv[1])
    only = sys.argv[2:]
    assert subprocess.run(['git', 'status', '--porcelain', '--untracked-files=no'], cwd=wt, capture_output=True, text=True).stdout.strip() == '', 'worktree not clean'
    env = dict(os.environ, VERIF_REPO=str(wt), PYTHONPATH=f'{wt}/src')
    out = []
    for name, rel, old, new, prop, changes in MUTS:
        if only and not any(name.startswith(o) for o in only):
            continue
        f = wt / rel
        text = f.read_text()
        assert text.count(old) >= 1, f'{name}: pattern not found'
        f.write_text(text.replace(old, new, 1))
        ev = VERIF / 'evidence' / f'{prop}.json'
        keep = ev.read_text() if ev.exists() else None
        try:
            p = subprocess.run(['./check', prop], cwd=VERIF, capture_output=True, text=True, env=env, timeout=3000)
        finally:
            f.write_text(text)
            if keep is not None:
                ev.write_text(keep)
        vio = [ln for ln in p.stdout.splitlines() if ln.startswith('VIOLATION')]
        sigs = []
        for ln in vio:
            rp = ln.split('replay=')[1].split()[0]
            try:
                sigs.append(json.loads(Path(rp).read_text()).get('signature'))
            except Exception:
                sigs.append('?')
        res = {'mutation': name, 'property': prop, 'behaviour_changes': changes, 'rc': p.returncode, 'violations': len(vio),
               'no_failing_input': sum('no-failing-input-found' in ln for ln in vio), 'signatures': sigs[:4]}
        print(json.dumps(res))
        out.append(res)
    # leave the generated tables as the clean tree gives them
    subprocess.run(['/venv/bin/python', '-c', 'import sys; sys.path.insert(0, %r); from tools import extract; extract.main(["Code"])' % str(VERIF)],
                   env=dict(os.environ, VERIF_REPO='/repo'), cwd=VERIF)
    return 0


if __name__ == '__main__':
    sys.exit(main())
