#!/venv/bin/python
"""Translator of a small imperative subset of Python into Lean 4 definitions (shallow embedding).

It reads the *current* source of the listed pure functions of /repo (by `ast`, nothing is imported or executed) and writes
`lean/GeoVerif/Generated/Code.lean`: one Lean `def` per function, in which

  * `float` is `Rat`, `int` is `Int`, `bool` is `Bool`, a list / numpy vector of numbers is `List Rat`;
  * assignments become `let` re-bindings, `xs[i] = e` becomes `let xs := Py.set xs i e`, `xs[i]` becomes `Py.get xs i`
    (Python's negative-index wrap included), `[c] * n` becomes `Py.replicate n c`;
  * `for i in range(a, b):` becomes a `List.foldl` over `Py.range a b` whose state is the tuple of the variables that the
    body assigns and that exist before the loop (loop-local temporaries stay local);
  * `if` becomes an `if … then … else …` returning the variables either branch assigns;
  * `return a, b` is the value of the definition.

Anything outside the subset raises `Unsupported` (the caller then reports the function as not translatable — that is a broken
tie, not a verdict).  The property theorems (`Properties/C04.lean`, `C16.lean`) prove, for **all** arguments, that these
generated definitions equal the hand-written models the other theorems are about; so a change of the Python source changes
the generated definition and the kernel re-checks the equality — or rejects it.

Trusted: this translator (≈ 300 lines: the meaning given to the subset above) and the reading of floats as exact rationals.
"""
from __future__ import annotations

import ast
import hashlib
import os
from fractions import Fraction
from pathlib import Path

SRC = Path(os.environ.get('VERIF_REPO', '/repo')) / 'src'

LEAN_KEYWORDS = {'end', 'from', 'at', 'in', 'open', 'then', 'else', 'do', 'let', 'fun', 'if', 'have', 'show', 'match', 'with',
                 'by', 'where', 'def', 'theorem', 'namespace', 'section', 'variable', 'import', 'export', 'local', 'Type',
                 'Prop', 'Sort', 'set', 'get', 'range', 'replicate', 'len', 'pos', 'st', 'step'}

# (file, function name, {param: type override})   types: Int | Rat | Bool | List
FUNCS = [
    ('geophires_x/Economics.py', 'BuildPTCModel', {}),
    ('geophires_x/Economics.py', 'BuildPricingModel', {}),
    ('geophires_x/Economics.py', 'CalculateRevenue', {'Energy': 'List', 'Price': 'List'}),
    ('geophires_x/WellBores.py', 'InjectionReservoirPressurePredictor', {}),
    ('geophires_x/WellBores.py', 'ReservoirPressurePredictor', {}),
    ('geophires_x/SurfacePlant.py', 'integrate_time_series_slice', {}),
    ('geophires_x/Economics.py', 'CalculateCarbonRevenue',
     {'model': 'Skip', 'price_dollar_lb': 'List', 'NetkWhProduced': 'List', 'HeatkWhProduced': 'List',
      # attribute chains read by the function: the end-use option and the two enum members it is compared with (any two distinct integers)
      '@model.surfaceplant.enduse_option.value': ('enduse', 'Int'), '@EndUseOptions.ELECTRICITY': ('EU_ELECTRICITY', 'Int'),
      '@EndUseOptions.HEAT': ('EU_HEAT', 'Int')}),
]

# statement sequences inside methods: (file, class, method, name of the generated def, first statement (source text of its target),
#   number of statements, {attribute chain: (identifier, type)} for the inputs, attribute chain of the result)
FRAGMENTS = [
    ('geophires_x/Economics.py', 'Economics', 'Calculate', 'PaybackFragment', 'self.ProjectPaybackPeriod.value', 2,
     {'self.TotalCummRevenue.value': ('TotalCummRevenue', 'List')}, 'self.ProjectPaybackPeriod.value', ('ProjectPaybackPeriod', 'Rat')),
    # the project cash flow as Economics.Calculate assembles it in place (CalculateTotalRevenue is not called any more):
    # CAPEX shares into the construction years, O&M off the operating years, then the running sum
    ('geophires_x/Economics.py', 'Economics', 'Calculate', 'CashFlowFragment', 'ProjectCAPEXPerConstructionYear', 4,
     {'self.TotalRevenue.value': ('TotalRevenue', 'List'), 'self.TotalCummRevenue.value': ('TotalCummRevenue', 'List'),
      'self.CCap.value': ('CCap', 'Rat'), 'self.Coam.value': ('Coam', 'Rat'),
      'model.surfaceplant.construction_years.value': ('construction_years', 'Int'),
      'model.surfaceplant.plant_lifetime.value': ('plant_lifetime', 'Int')},
     '(self.TotalRevenue.value, self.TotalCummRevenue.value)', None),
    # SBTEconomics.Calculate carries its own copies of both statement runs
    ('geophires_x/SBTEconomics.py', 'SBTEconomics', 'Calculate', 'PaybackFragmentSBT', 'self.ProjectPaybackPeriod.value', 2,
     {'self.TotalCummRevenue.value': ('TotalCummRevenue', 'List')}, 'self.ProjectPaybackPeriod.value', ('ProjectPaybackPeriod', 'Rat')),
    ('geophires_x/SBTEconomics.py', 'SBTEconomics', 'Calculate', 'CashFlowFragmentSBT', 'ProjectCAPEXPerConstructionYear', 4,
     {'self.TotalRevenue.value': ('TotalRevenue', 'List'), 'self.TotalCummRevenue.value': ('TotalCummRevenue', 'List'),
      'self.CCap.value': ('CCap', 'Rat'), 'self.Coam.value': ('Coam', 'Rat'),
      'model.surfaceplant.construction_years.value': ('construction_years', 'Int'),
      'model.surfaceplant.plant_lifetime.value': ('plant_lifetime', 'Int')},
     '(self.TotalRevenue.value, self.TotalCummRevenue.value)', None),
]

ANNOT = {'int': 'Int', 'float': 'Rat', 'bool': 'Bool', 'list': 'List'}
ANNOT_ATTR = {'np.ndarray': 'List', 'np.float64': 'Rat'}
LEAN_T = {'Int': 'Int', 'Rat': 'Rat', 'Bool': 'Bool', 'List': 'List Rat'}


class Unsupported(Exception):
    pass


def ident(name: str) -> str:
    return name + '_' if name in LEAN_KEYWORDS else name


def rat_lit(x) -> str:
    f = Fraction(repr(x)) if isinstance(x, float) else Fraction(x)
    if f.denominator == 1:
        return f'({f.numerator} : Rat)'
    return f'(({f.numerator} : Rat) / {f.denominator})'


class Tr:
    def __init__(self, fn: ast.FunctionDef, overrides: dict, attrs: dict | None = None):
        self.fn = fn
        self.types: dict[str, str] = {}
        self.params = []
        self.attrs = {k: v[0] for k, v in (attrs or {}).items()}     # attribute chain text -> identifier
        for k, (name, t) in (attrs or {}).items():
            if t is not None:
                self.types[name] = t
        for k, v in list(overrides.items()):
            if k.startswith('@'):
                self.attrs[k[1:]] = v[0]
                self.types[v[0]] = v[1]
        self.extra_params = [v for k, v in overrides.items() if k.startswith('@')]
        for a in fn.args.args:
            if a.arg == 'self':
                raise Unsupported('method')
            t = overrides.get(a.arg)
            if t == 'Skip':
                continue
            if t is None:
                ann = a.annotation
                t = ANNOT.get(ann.id) if isinstance(ann, ast.Name) else ANNOT_ATTR.get(ast.unparse(ann)) if ann is not None else None
            if t is None:
                raise Unsupported(f'parameter {a.arg}: no type')
            self.types[a.arg] = t
            self.params.append((a.arg, t))
        self.ret_type = None

    # -- expressions: returns (lean text, type) --------------------------------------------------------------------------
    def to_rat(self, s: str, t: str) -> str:
        if t == 'Rat':
            return s
        if t == 'Int':
            return f'(({s} : Int) : Rat)'
        raise Unsupported(f'cannot use {t} as a number')

    def expr(self, e: ast.AST) -> tuple[str, str]:
        if isinstance(e, ast.Constant):
            v = e.value
            if isinstance(v, bool):
                return ('true' if v else 'false'), 'Bool'
            if isinstance(v, int):
                return f'({v} : Int)', 'Int'
            if isinstance(v, float):
                return rat_lit(v), 'Rat'
            raise Unsupported(f'constant {v!r}')
        if isinstance(e, ast.Attribute) and ast.unparse(e) in self.attrs:
            n = self.attrs[ast.unparse(e)]
            if n not in self.types:
                raise Unsupported(f'{ast.unparse(e)} read before it is assigned')
            return ident(n), self.types[n]
        if isinstance(e, ast.Name):
            if e.id not in self.types:
                raise Unsupported(f'unknown name {e.id}')
            return ident(e.id), self.types[e.id]
        if isinstance(e, ast.UnaryOp) and isinstance(e.op, ast.USub):
            s, t = self.expr(e.operand)
            return f'(-{s})', t
        if isinstance(e, ast.UnaryOp) and isinstance(e.op, ast.Not):
            return f'(¬ {self.cond(e.operand)})', 'Prop'
        if isinstance(e, ast.BinOp):
            # [c] * n  and  ([c] * n) * m == [c] * (n * m)
            rep = self.list_rep(e)
            if rep is not None:
                c, n = rep
                return f'(Py.replicate {n} {c})', 'List'
            a, ta = self.expr(e.left)
            b, tb = self.expr(e.right)
            if ta not in ('Int', 'Rat') or tb not in ('Int', 'Rat'):
                raise Unsupported(f'arithmetic on {ta}, {tb}')
            ops = {ast.Add: '+', ast.Sub: '-', ast.Mult: '*'}
            if type(e.op) in ops:
                if ta == tb == 'Int':
                    return f'({a} {ops[type(e.op)]} {b})', 'Int'
                return f'({self.to_rat(a, ta)} {ops[type(e.op)]} {self.to_rat(b, tb)})', 'Rat'
            if isinstance(e.op, ast.Div):
                return f'({self.to_rat(a, ta)} / {self.to_rat(b, tb)})', 'Rat'
            raise Unsupported(f'operator {type(e.op).__name__}')
        if isinstance(e, ast.Subscript):
            base, tb = self.expr(e.value)
            if tb != 'List':
                raise Unsupported('subscript of a non-list')
            if isinstance(e.slice, ast.Slice):
                if e.slice.step is not None or e.slice.lower is None or e.slice.upper is None:
                    raise Unsupported('slice form')
                lo, tl = self.expr(e.slice.lower)
                hi, th = self.expr(e.slice.upper)
                if tl != 'Int' or th != 'Int':
                    raise Unsupported('non-integer slice bound')
                return f'(Py.slice {base} {lo} {hi})', 'List'
            i, ti = self.expr(e.slice)
            if ti != 'Int':
                raise Unsupported('non-integer index')
            return f'(Py.get {base} {i})', 'Rat'
        if isinstance(e, ast.Call):
            if isinstance(e.func, ast.Name) and e.func.id == 'len' and len(e.args) == 1:
                s, t = self.expr(e.args[0])
                if t != 'List':
                    raise Unsupported('len of a non-list')
                return f'(Py.len {s})', 'Int'
            if isinstance(e.func, ast.Name) and e.func.id in ('min', 'max') and len(e.args) == 2:
                a, ta = self.expr(e.args[0])
                b, tb = self.expr(e.args[1])
                if ta == tb == 'Int':
                    return f'({e.func.id} {a} {b})', 'Int'
                return f'({e.func.id} {self.to_rat(a, ta)} {self.to_rat(b, tb)})', 'Rat'
            if isinstance(e.func, ast.Name) and e.func.id == 'list' and len(e.args) == 1:
                a, ta = self.expr(e.args[0])
                if ta != 'List':
                    raise Unsupported('list() of a non-list')
                return a, 'List'
            if ast.unparse(e.func) == 'np.trapz' and len(e.args) == 1 and [k.arg for k in e.keywords] == ['dx']:
                a, ta = self.expr(e.args[0])
                d, td = self.expr(e.keywords[0].value)
                if ta != 'List':
                    raise Unsupported('np.trapz of a non-list')
                return f'(Py.trapz {a} {self.to_rat(d, td)})', 'Rat'
            if isinstance(e.func, ast.Name) and e.func.id == 'int' and len(e.args) == 1:
                a, ta = self.expr(e.args[0])
                return (a, 'Int') if ta == 'Int' else (f'(Py.trunc {a})', 'Int')
            if ast.unparse(e.func) in ('math.fabs', 'abs', 'np.abs', 'np.fabs') and len(e.args) == 1:
                a, ta = self.expr(e.args[0])
                return f'(Py.fabs {self.to_rat(a, ta)})', 'Rat'
            if isinstance(e.func, ast.Attribute) and e.func.attr == 'copy' and not e.args:
                return self.expr(e.func.value)
            raise Unsupported(f'call {ast.unparse(e.func)}')
        if isinstance(e, ast.IfExp):
            c = self.cond(e.test)
            a, ta = self.expr(e.body)
            b, tb = self.expr(e.orelse)
            if ta == tb:
                return f'(if {c} then {a} else {b})', ta
            return f'(if {c} then {self.to_rat(a, ta)} else {self.to_rat(b, tb)})', 'Rat'
        raise Unsupported(f'expression {type(e).__name__}: {ast.unparse(e)}')

    def list_rep(self, e: ast.AST):
        if isinstance(e, ast.BinOp) and isinstance(e.op, ast.Mult):
            if isinstance(e.left, ast.List) and len(e.left.elts) == 1:
                c, ct = self.expr(e.left.elts[0])
                n, nt = self.expr(e.right)
                if nt != 'Int':
                    raise Unsupported('list repetition count must be an int')
                return self.to_rat(c, ct), n
            inner = self.list_rep(e.left)
            if inner is not None:
                n, nt = self.expr(e.right)
                if nt != 'Int':
                    raise Unsupported('list repetition count must be an int')
                return inner[0], f'({inner[1]} * {n})'
        return None

    def cond(self, e: ast.AST) -> str:
        if isinstance(e, ast.BoolOp):
            op = ' ∧ ' if isinstance(e.op, ast.And) else ' ∨ '
            return '(' + op.join(self.cond(v) for v in e.values) + ')'
        if isinstance(e, ast.UnaryOp) and isinstance(e.op, ast.Not):
            return f'(¬ {self.cond(e.operand)})'
        if isinstance(e, ast.Compare):
            if len(e.ops) != 1:
                parts = []
                left = e.left
                for op, right in zip(e.ops, e.comparators):
                    parts.append(self.cond(ast.Compare(left=left, ops=[op], comparators=[right])))
                    left = right
                return '(' + ' ∧ '.join(parts) + ')'
            a, ta = self.expr(e.left)
            b, tb = self.expr(e.comparators[0])
            ops = {ast.Lt: '<', ast.LtE: '≤', ast.Gt: '>', ast.GtE: '≥', ast.Eq: '=', ast.NotEq: '≠'}
            if type(e.ops[0]) not in ops:
                raise Unsupported('comparison operator')
            o = ops[type(e.ops[0])]
            if ta == tb and ta in ('Int', 'Rat', 'Bool'):
                return f'({a} {o} {b})'
            return f'({self.to_rat(a, ta)} {o} {self.to_rat(b, tb)})'
        s, t = self.expr(e)
        if t == 'Bool':
            return f'({s} = true)'
        raise Unsupported(f'truth value of a {t}')

    # -- statements ----------------------------------------------------------------------------------------------------
    def assigned(self, stmts) -> list[str]:
        out: list[str] = []

        def add(n):
            if n not in out:
                out.append(n)

        for s in stmts:
            if isinstance(s, (ast.Assign, ast.AugAssign)):
                tgts = s.targets if isinstance(s, ast.Assign) else [s.target]
                for t in tgts:
                    if isinstance(t, ast.Name):
                        add(t.id)
                    elif isinstance(t, ast.Subscript) and isinstance(t.value, ast.Name):
                        add(t.value.id)
                    elif isinstance(t, ast.Attribute) and ast.unparse(t) in self.attrs:
                        add(self.attrs[ast.unparse(t)])
                    elif isinstance(t, ast.Subscript) and ast.unparse(t.value) in self.attrs:
                        add(self.attrs[ast.unparse(t.value)])
                    else:
                        raise Unsupported('assignment target')
            elif isinstance(s, ast.For):
                for n in self.assigned(s.body):
                    if n != 'brk_':
                        add(n)
            elif isinstance(s, ast.If):
                for n in self.assigned(s.body) + self.assigned(s.orelse):
                    add(n)
            elif isinstance(s, ast.Break):
                add('brk_')
            elif (isinstance(s, ast.Expr) and isinstance(s.value, ast.Call) and isinstance(s.value.func, ast.Attribute)
                  and s.value.func.attr == 'append' and isinstance(s.value.func.value, ast.Name)):
                add(s.value.func.value.id)
        return out

    @staticmethod
    def break_is_tail(stmts) -> bool:
        """every `break` is the last statement of its block, and the conditionals leading to it are the last statements of theirs
        (nothing of the iteration runs after a `break`, so a flag that skips the *following* iterations is the whole meaning)"""
        for k, st in enumerate(stmts):
            has = any(isinstance(n, ast.Break) for n in ast.walk(st))
            if not has:
                continue
            if k != len(stmts) - 1:
                return False
            if isinstance(st, ast.Break):
                return True
            if isinstance(st, ast.If):
                return Tr.break_is_tail(st.body) and Tr.break_is_tail(st.orelse)
            return False
        return True

    def tuple_of(self, names: list[str]) -> str:
        return ident(names[0]) if len(names) == 1 else '(' + ', '.join(ident(n) for n in names) + ')'

    def tuple_type(self, names: list[str]) -> str:
        return ' × '.join(LEAN_T[self.types[n]] if ' ' not in LEAN_T[self.types[n]] else f'({LEAN_T[self.types[n]]})' for n in names)

    def unpack(self, names: list[str], src: str, ind: str) -> list[str]:
        """`let a := src.1; let b := src.2.1; …` (projections, not pattern matching: easier to rewrite in proofs)"""
        if len(names) == 1:
            return [f'{ind}let {ident(names[0])} := {src}']
        out = []
        for k, n in enumerate(names):
            proj = '.2' * k + ('.1' if k < len(names) - 1 else '')
            out.append(f'{ind}let {ident(n)} := {src}{proj}')
        return out

    def assign(self, name: str, val: str, vt: str, ind: str) -> str:
        old = self.types.get(name)
        if old is not None and old != vt:
            if old == 'Rat' and vt == 'Int':
                val, vt = self.to_rat(val, vt), 'Rat'
            else:
                raise Unsupported(f'{name} changes type {old} -> {vt}')
        self.types[name] = vt
        return f'{ind}let {ident(name)} := {val}'

    def block(self, stmts, ind: str) -> list[str]:
        out: list[str] = []
        for s in stmts:
            if isinstance(s, ast.Expr) and isinstance(s.value, ast.Constant) and isinstance(s.value.value, str):
                continue  # docstring
            if isinstance(s, ast.Assign):
                if len(s.targets) != 1:
                    raise Unsupported('multiple targets')
                t = s.targets[0]
                v, vt = self.expr(s.value)
                if isinstance(t, ast.Name):
                    out.append(self.assign(t.id, v, vt, ind))
                elif isinstance(t, ast.Attribute) and ast.unparse(t) in self.attrs:
                    out.append(self.assign(self.attrs[ast.unparse(t)], v, vt, ind))
                elif isinstance(t, ast.Subscript) and (isinstance(t.value, ast.Name) or ast.unparse(t.value) in self.attrs):
                    base = t.value.id if isinstance(t.value, ast.Name) else self.attrs[ast.unparse(t.value)]
                    if self.types.get(base) != 'List':
                        raise Unsupported('item assignment to a non-list')
                    i, ti = self.expr(t.slice)
                    if ti != 'Int':
                        raise Unsupported('non-integer index')
                    out.append(f'{ind}let {ident(base)} := Py.set {ident(base)} {i} {self.to_rat(v, vt)}')
                else:
                    raise Unsupported('assignment target')
            elif isinstance(s, ast.AugAssign):
                binop = ast.BinOp(left=ast.copy_location(ast.parse(ast.unparse(s.target), mode='eval').body, s), op=s.op, right=s.value)
                out += self.block([ast.Assign(targets=[s.target], value=binop)], ind)
            elif isinstance(s, ast.For):
                if s.orelse or not (isinstance(s.iter, ast.Call) and isinstance(s.iter.func, ast.Name) and s.iter.func.id == 'range'):
                    raise Unsupported('for loop that is not over range()')
                args = s.iter.args
                if len(args) == 3:
                    if not (isinstance(args[2], ast.Constant) and args[2].value == 1):
                        raise Unsupported('range step other than 1')
                    args = args[:2]
                if len(args) == 1:
                    lo, hi = ('(0 : Int)', 'Int'), self.expr(args[0])
                else:
                    lo, hi = self.expr(args[0]), self.expr(args[1])
                if lo[1] != 'Int' or hi[1] != 'Int' or not isinstance(s.target, ast.Name):
                    raise Unsupported('range bounds / loop variable')
                var = s.target.id
                has_break = any(isinstance(n, ast.Break) for st in s.body for n in ast.walk(st))
                if has_break:
                    if any(isinstance(n, ast.For) for st in s.body for n in ast.walk(st)) or not self.break_is_tail(s.body):
                        raise Unsupported('break that is not the last thing its iteration does')
                    if 'brk_' in self.types:
                        raise Unsupported('nested loops with break')
                    out.append(f'{ind}let brk_ := false')
                    self.types['brk_'] = 'Bool'
                state = [n for n in self.assigned(s.body) if n in self.types and n != var]
                if not state:
                    raise Unsupported('loop without effect')
                saved = dict(self.types)
                self.types[var] = 'Int'
                if has_break:
                    head = f'{ind}let st := (Py.range {lo[0]} {hi[0]}).foldl (fun (st : {self.tuple_type(state)}) ({ident(var)} : Int) =>'
                    body = (self.unpack(state, 'st', ind + '    ') + [f'{ind}    if brk_ = true then {self.tuple_of(state)} else ('] + self.block(s.body, ind + '      ')
                            + [f'{ind}      {self.tuple_of(state)})) {self.tuple_of(state)}'])
                    out += [head] + body + self.unpack(state, 'st', ind)
                elif len(state) == 1:
                    head = f'{ind}let {ident(state[0])} := (Py.range {lo[0]} {hi[0]}).foldl (fun ({ident(state[0])} : {LEAN_T[self.types[state[0]]]}) ({ident(var)} : Int) =>'
                    body = self.block(s.body, ind + '    ')
                    out += [head] + body + [f'{ind}    {ident(state[0])}) {ident(state[0])}']
                else:
                    head = f'{ind}let st := (Py.range {lo[0]} {hi[0]}).foldl (fun (st : {self.tuple_type(state)}) ({ident(var)} : Int) =>'
                    body = self.unpack(state, 'st', ind + '    ') + self.block(s.body, ind + '    ')
                    out += [head] + body + [f'{ind}    {self.tuple_of(state)}) {self.tuple_of(state)}'] + self.unpack(state, 'st', ind)
                # loop-local names must not leak
                for n in list(self.types):
                    if n not in saved:
                        del self.types[n]
                for n in state:
                    self.types[n] = saved[n]
                self.types.pop('brk_', None)
            elif isinstance(s, ast.If) and s.body and isinstance(s.body[-1], ast.Return) and not s.orelse and stmts is self.fn.body:
                # early return at the top level:  if c: …; return X   <rest>   ==>   if c then (…; X) else (<rest>)
                c = self.cond(s.test)
                before = dict(self.types)
                self._early = True
                b1 = self.block(s.body, ind + '    ')
                r1 = self.ret_type
                self.types = dict(before)
                rest = stmts[stmts.index(s) + 1:]
                b2 = self.block(rest, ind + '    ')
                if r1 != self.ret_type:
                    raise Unsupported('return types differ')
                out.append(f'{ind}if {c} then (')
                out += b1 + [f'{ind}    ) else ('] + b2 + [f'{ind}    )']
                return out
            elif isinstance(s, ast.If):
                c = self.cond(s.test)
                before = dict(self.types)
                names = [n for n in self.assigned(s.body + s.orelse) if n in before]   # names first assigned inside a branch stay local to it
                if not names:
                    raise Unsupported('conditional without effect')
                b1 = self.block(s.body, ind + '    ')
                self.types = dict(before)
                b2 = self.block(s.orelse, ind + '    ') if s.orelse else []
                self.types = dict(before)
                tgt = 'st' if len(names) > 1 else ident(names[0])
                out.append(f'{ind}let {tgt} := if {c} then (')
                out += b1 + [f'{ind}    {self.tuple_of(names)}) else (']
                out += b2 + [f'{ind}    {self.tuple_of(names)})']
                if len(names) > 1:
                    out += self.unpack(names, 'st', ind)
            elif (isinstance(s, ast.Expr) and isinstance(s.value, ast.Call) and isinstance(s.value.func, ast.Attribute)
                  and s.value.func.attr == 'append' and isinstance(s.value.func.value, ast.Name) and len(s.value.args) == 1):
                name = s.value.func.value.id
                if self.types.get(name) != 'List':
                    raise Unsupported('append to a non-list')
                v, vt = self.expr(s.value.args[0])
                out.append(f'{ind}let {ident(name)} := {ident(name)} ++ [{self.to_rat(v, vt)}]')
            elif isinstance(s, ast.Break):
                out.append(f'{ind}let brk_ := true')
            elif isinstance(s, ast.Return):
                if s is not stmts[-1] or not (s is self.fn.body[-1] or getattr(self, '_early', False)):
                    raise Unsupported('return before the end')
                if isinstance(s.value, ast.Tuple):
                    parts = [self.expr(v) for v in s.value.elts]
                    out.append(f'{ind}(' + ', '.join(p[0] for p in parts) + ')')
                    self.ret_type = ' × '.join(f'({LEAN_T[p[1]]})' if ' ' in LEAN_T[p[1]] else LEAN_T[p[1]] for p in parts)
                else:
                    v, vt = self.expr(s.value)
                    out.append(f'{ind}{v}')
                    self.ret_type = LEAN_T[vt]
            else:
                raise Unsupported(f'statement {type(s).__name__}')
        return out

    def emit(self) -> str:
        body = self.block(self.fn.body, '  ')
        if self.ret_type is None:
            raise Unsupported('no return')
        ps = ' '.join(f'({ident(n)} : {LEAN_T[t]})' for n, t in self.params + getattr(self, 'extra_params', []))
        return f'def {ident(self.fn.name)} {ps} : {self.ret_type} :=\n' + '\n'.join(body) + '\n'


def find_function(tree: ast.Module, name: str) -> ast.FunctionDef:
    for n in ast.walk(tree):
        if isinstance(n, ast.FunctionDef) and n.name == name:
            return n
    raise Unsupported(f'function {name} not found')


def generate() -> tuple[str, dict]:
    parts = []
    info = {}
    for rel, name, overrides in FUNCS:
        path = SRC / rel
        try:
            fn = find_function(ast.parse(path.read_text()), name)
            src = ast.unparse(fn)
            text = Tr(fn, overrides).emit()
            info[name] = {'file': rel, 'source_sha1': hashlib.sha1(src.encode()).hexdigest()[:12], 'translated': True}
        except Unsupported as ex:
            # keep the library building: the property theorem about this name will not (that is the broken tie)
            text = f'/- {name}: NOT TRANSLATABLE ({ex}) -/\n'
            info[name] = {'file': rel, 'translated': False, 'why': str(ex)}
        parts.append((f'/-- transcription of `{name}` ({rel}) -/\n' if info[name]['translated'] else '') + text)
    for rel, cls, meth, name, first, count, inputs, result, rspec in FRAGMENTS:
        path = SRC / rel
        try:
            tree = ast.parse(path.read_text())
            cdef = next(n for n in tree.body if isinstance(n, ast.ClassDef) and n.name == cls)
            mdef = next(n for n in cdef.body if isinstance(n, ast.FunctionDef) and n.name == meth)
            frag = None
            after = []
            for node in ast.walk(mdef):
                for fld in ('body', 'orelse'):
                    seq = getattr(node, fld, None)
                    if not isinstance(seq, list):
                        continue
                    for k, st in enumerate(seq):
                        if isinstance(st, ast.Assign) and len(st.targets) == 1 and ast.unparse(st.targets[0]) == first:
                            if frag is None:     # ast.walk is breadth-first: the outermost occurrence; others are checked below
                                frag = seq[k:k + count]
                                after = seq[k + count:]
            if frag is None or len(frag) != count:
                raise Unsupported(f'statements starting at `{first} = …` not found')
            # nothing after the fragment (in its block) may assign a result again: the fragment is what computes the reported value
            results = [ast.unparse(e) for e in ast.parse(result, mode='eval').body.elts] if result.startswith('(') else [result]

            def targets_of(n):
                ts = n.targets if isinstance(n, ast.Assign) else [n.target]
                out_ = []
                for t in ts:
                    for e in (t.elts if isinstance(t, ast.Tuple) else [t]):
                        out_.append(ast.unparse(e.value) if isinstance(e, ast.Subscript) else ast.unparse(e))
                return out_
            others = [n for st in after for n in ast.walk(st) if isinstance(n, (ast.Assign, ast.AugAssign)) and any(t in results for t in targets_of(n))]
            if others:
                raise Unsupported(f'{results} assigned again after the fragment (line {others[0].lineno})')
            ret = ast.Return(value=ast.parse(result, mode='eval').body)
            fn = ast.FunctionDef(name=name, args=ast.arguments(posonlyargs=[], args=[], kwonlyargs=[], kw_defaults=[], defaults=[]),
                                 body=list(frag) + [ret], decorator_list=[])
            attrs = dict(inputs)
            if rspec is not None:
                attrs[result] = (rspec[0], None)
            tr = Tr(fn, {}, attrs)
            tr.extra_params = [(n, t) for n, t in inputs.values()]
            text = tr.emit()
            src = '\n'.join(ast.unparse(f) for f in frag)
            info[name] = {'file': rel, 'where': f'{cls}.{meth}', 'source_sha1': hashlib.sha1(src.encode()).hexdigest()[:12], 'translated': True}
        except (Unsupported, StopIteration) as ex:
            text = f'/- {name}: NOT TRANSLATABLE ({ex}) -/\n'
            info[name] = {'file': rel, 'translated': False, 'why': str(ex)}
        parts.append((f'/-- transcription of the statements computing `{result}` in `{cls}.{meth}` ({rel}) -/\n' if info[name]['translated'] else '') + text)
    body = ('import GeoVerif.Model.Py\n'
            '/-! GENERATED by tools/py2lean.py from the current source of /repo — do not edit. -/\n'
            'set_option linter.unusedVariables false\n'
            'namespace GeoVerif.Code\nopen GeoVerif\n\n' + '\n'.join(parts) + '\nend GeoVerif.Code\n')
    return body, info


if __name__ == '__main__':
    print(generate()[0])
