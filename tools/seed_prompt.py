#!/usr/bin/env python3
"""prints the prompt given to an independent sub-agent that is asked to break one property (it sees nothing of /verif)"""
import json
import sys

pid = sys.argv[1]
first = int(sys.argv[2]) if len(sys.argv) > 2 else 1   # number of the first change (second round: 4)
count = int(sys.argv[3]) if len(sys.argv) > 3 else 3
WORDS = {1: 'ONE', 2: 'TWO', 3: 'THREE'}
ks = ', '.join(str(first + i) for i in range(count))
wt = f'/tmp/wt_{pid}'
prop = next(json.loads(l) for l in open('/verif/properties.jsonl') if json.loads(l)['id'] == pid)
print(f"""You are helping to evaluate a verification effort by playing the adversary. You work ONLY inside the scratch git worktree
{wt} (a checkout of NREL/GEOPHIRES-X, a Python geothermal techno-economic simulator). Do NOT read, list or use anything under /verif,
and do NOT modify /repo. Everything you write goes under {wt} (source edits) or /tmp/seeds/{pid}_<k>/ (your deliverables).

How to run things:
  - python interpreter: /venv/bin/python ; to import the worktree's code set PYTHONPATH={wt}/src (otherwise the installed copy of /repo is imported!)
  - test suite: cd {wt} && PYTHONPATH={wt}/src /venv/bin/python -m pytest -q -p no:cacheprovider --timeout=900 --continue-on-collection-errors
    On the unmodified worktree this gives 149 passed, 6 failed, 4 errors (the failures/errors pre-exist and are expected; some example
    data files are emptied in this sandbox, so tests/test_geophires_x.py does not collect). A change "passes the tests" if the same 149 still pass.
  - a run: write an input file and call the client, e.g.
        from geophires_x_client import GeophiresXClient, GeophiresInputParameters
        r = GeophiresXClient(enable_caching=False).get_geophires_result(GeophiresInputParameters({{'Reservoir Model': 4, 'End-Use Option': 1, ...}}))
    example inputs are in {wt}/tests/examples/*.txt (Beckers*, example6, example7 and SBT ones do not run or are slow here). There is no network.

The property under attack (id {pid}): "{prop['title']}"
  Statement: {prop['statement']}
  Quantified over: {prop['quantifier']['text']}
  Code anchors: {', '.join(prop['anchors']['files'])}

Your task: produce {WORDS[count]} different, realistic source changes (the kind of bug a maintainer could plausibly introduce in a refactor or
feature change), each of which makes the property FALSE for some input/configuration/history while the code still imports, runs and passes
the existing test suite as described above. Prefer changes that need something specific to manifest — a particular end-use option, an
unusual but valid input, a particular branch/configuration, a multi-step sequence, two cooperating sites that each look fine alone — over
changes that every ordinary run would expose at once. Vary the mechanisms and the code sites across them.

For each change k = {ks}:
  1. make the edit in {wt}, run the test suite, confirm the 149 still pass;
  2. write /tmp/seeds/{pid}_k/patch.diff  (output of `git -C {wt} diff`), 
     /tmp/seeds/{pid}_k/demo.py — a small self-contained program that exits 0 when the property holds and exits 1 (printing what it saw)
       when it is violated; it must exit 1 with your change and exit 0 without it; it is run as
       `PYTHONPATH=<tree>/src /venv/bin/python demo.py` so it must not hard-code {wt} for imports,
     /tmp/seeds/{pid}_k/notes.md — which clause of the property it breaks, what is needed for it to manifest (inputs/config/sequence), and
       what you ran to confirm (test result line, demo exit codes with and without the change);
  3. restore the worktree (git -C {wt} checkout -- .) before starting the next change.
Never use `git stash` (the stash is shared between worktrees; other people work in sibling worktrees): save with `git diff > file`, restore with
`git checkout -- .`, re-apply with `git apply`. Earlier rounds already produced obvious changes (a wrong constant, a dropped term, a swapped
argument that every ordinary run exposes); this round should aim for changes whose effect is confined to an unusual but valid corner:
a particular combination of options, a boundary value, a rarely used branch (SUTRA / AGS / absorption chiller / heat pump / district heating / S-DAC-GT / add-ons /
HIP-RA-X / Monte Carlo where relevant), an interaction between two modules, state carried between runs of one process, a dependence on dictionary / set order,
a numeric corner (zero, exact equality with a threshold, very large or very small magnitudes, a lifetime of 1 year or of 100 years).
Budget about 40 minutes in total; deliver each change as soon as it is confirmed.
Finish with the worktree restored to its clean state and reply with a short summary of the changes (one paragraph each)."""
)
