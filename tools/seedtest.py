#!/usr/bin/env python3
"""Confirm a seeded breaking change and run our checks against it.

  seedtest.py <seed-dir> <seed-id> <PROP> [<PROP>…]      e.g. seedtest.py /tmp/seeds/C16_1 C16_1 C16

Steps (all in /repo, always reverted with `git checkout -- .`):
  1. demo.py on the clean tree must exit 0
  2. git apply patch.diff ; baseline tests must still give the same passing set (149) ; demo.py must exit 1
  3. run ./check <PROP> (quick) for each property; record exit status and VIOLATION lines
  4. revert; copy patch/demo/notes + meta.json to /verif/seeded/<seed-id>/
"""
import json
import re
import shutil
import subprocess
import sys
from pathlib import Path

REPO = '/repo'
VERIF = Path('/verif')
PY = '/venv/bin/python'
TEST = [PY, '-m', 'pytest', '-ra', '-q', '-p', 'no:cacheprovider', '--timeout=900', '--continue-on-collection-errors']


def sh(cmd, cwd=None, env=None, timeout=3000):
    import os
    e = dict(os.environ)
    e.pop('GEOPHIRES_X_VERIF', None)
    if env:
        e.update(env)
    return subprocess.run(cmd, cwd=cwd, capture_output=True, text=True, env=e, timeout=timeout)


def passed_count():
    r = sh(TEST, cwd=REPO)
    m = re.search(r'(\d+) passed', r.stdout)
    f = re.search(r'(\d+) failed', r.stdout)
    return (int(m.group(1)) if m else 0, int(f.group(1)) if f else 0, r.stdout.strip().splitlines()[-1])


def main():
    seed = Path(sys.argv[1])
    sid = sys.argv[2]
    props = sys.argv[3:]
    skip_tests = '--skip-tests' in props
    props = [p for p in props if not p.startswith('--')]
    assert sh(['git', 'status', '--porcelain', '--untracked-files=no'], cwd=REPO).stdout.strip() == '', '/repo not clean'
    meta = {'seed': sid, 'breaks_property': props[0], 'checked_with': props}
    demo = seed / 'demo.py'
    r0 = sh([PY, str(demo)], cwd='/tmp', env={'PYTHONPATH': f'{REPO}/src'})
    meta['demo_clean_rc'] = r0.returncode
    ap = sh(['git', 'apply', str(seed / 'patch.diff')], cwd=REPO)
    if ap.returncode != 0:
        print('patch does not apply:', ap.stderr)
        meta['applies'] = False
        print(json.dumps(meta, indent=1))
        return 1
    try:
        if not skip_tests:
            p, f, line = passed_count()
            meta['tests_with_change'] = line
            meta['tests_pass'] = (p == 149)
        r1 = sh([PY, str(demo)], cwd='/tmp', env={'PYTHONPATH': f'{REPO}/src'})
        meta['demo_changed_rc'] = r1.returncode
        meta['demo_output_tail'] = (r1.stdout + r1.stderr)[-600:]
        meta['checks'] = {}
        for pr in props:
            ev = Path(VERIF) / 'evidence' / f'{pr}.json'
            ev_keep = ev.read_text() if ev.exists() else None      # the committed evidence must describe the unchanged tree: put it back afterwards
            c = subprocess.run(['./check', pr, '--tier', 'quick'], cwd=VERIF, capture_output=True, text=True, timeout=3000)
            if ev_keep is not None:
                ev.write_text(ev_keep)
            vio = [ln for ln in c.stdout.splitlines() if ln.startswith(('VIOLATION', 'KNOWN-FINDING'))]
            vio.sort(key=lambda ln: not ln.startswith('VIOLATION'))     # violations first (C19 prints dozens of listed findings)
            meta['checks'][pr] = {'rc': c.returncode, 'lines': vio[:5]}
            # keep one replay as an example of what the check reports
            if vio and vio[0].startswith('VIOLATION'):
                m = re.search(r'replay=(\S+)', vio[0])
                if m and Path(m.group(1)).exists():
                    body = json.loads(Path(m.group(1)).read_text())
                    meta['checks'][pr]['signature'] = body.get('signature')
                    meta['checks'][pr]['what'] = body.get('what')
    finally:
        sh(['git', 'checkout', '--', '.'], cwd=REPO)
    meta['caught_by'] = [pr for pr, v in meta.get('checks', {}).items() if v['rc'] == 1]
    dest = VERIF / 'seeded' / sid
    dest.mkdir(parents=True, exist_ok=True)
    for fn in ('patch.diff', 'demo.py', 'notes.md'):
        if (seed / fn).exists():
            shutil.copy(seed / fn, dest / fn)
    notes = (seed / 'notes.md').read_text() if (seed / 'notes.md').exists() else ''
    meta['needs_to_manifest'] = notes[:1500]
    meta['what_was_run'] = ('demo.py on clean /repo (rc %s) and with the patch applied (rc %s); baseline pytest with the patch; ./check <prop> --tier quick with the '
                            'patch applied; /repo restored with git checkout' % (meta['demo_clean_rc'], meta.get('demo_changed_rc')))
    old_meta = json.loads((dest / 'meta.json').read_text()) if (dest / 'meta.json').exists() else {}
    if 'tests_pass' not in meta and 'tests_pass' in old_meta:   # a --skip-tests re-run keeps the earlier baseline-test result of the same patch
        meta['tests_with_change'], meta['tests_pass'] = old_meta.get('tests_with_change'), old_meta['tests_pass']
    if old_meta.get('first_run_caught_by') is not None or old_meta.get('caught_by') is not None:
        meta['first_run_caught_by'] = old_meta.get('first_run_caught_by', old_meta.get('caught_by'))
    (dest / 'meta.json').write_text(json.dumps(meta, indent=1) + '\n')
    print(json.dumps({k: v for k, v in meta.items() if k not in ('needs_to_manifest', 'demo_output_tail')}, indent=1))
    return 0


if __name__ == '__main__':
    sys.exit(main())
